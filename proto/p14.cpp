#include "DensitySubGridCreator.hpp"
#include "DensitySubGrid.hpp"
#include "HomogeneousDensityFunction.hpp"
#include <cstdio>
#include <vector>
#include <set>
static void sgn_of(int dir,int s[3]){ // independent table from enum comments
  static const int T[27][3]={{0,0,0},{1,1,1},{1,1,-1},{1,-1,1},{1,-1,-1},{-1,1,1},{-1,1,-1},{-1,-1,1},{-1,-1,-1},
   {0,1,1},{0,1,-1},{0,-1,1},{0,-1,-1},{1,0,1},{1,0,-1},{-1,0,1},{-1,0,-1},{1,1,0},{1,-1,0},{-1,1,0},{-1,-1,0},
   {1,0,0},{-1,0,0},{0,1,0},{0,-1,0},{0,0,1},{0,0,-1}}; for(int i=0;i<3;++i)s[i]=T[dir][i]; }
int main(){
  long bad=0;
  for(int o=0;o<27;++o){ int i=TravelDirections::output_to_input_direction(o); int so[3],si[3]; sgn_of(o,so); sgn_of(i,si); for(int k=0;k<3;++k) if(si[k]!=-so[k]) {++bad; printf("o2i wrong for %d\n",o);} if(TravelDirections::output_to_input_direction(i)!=o){++bad; printf("not involution %d\n",o);} }
  // compat tables
  for(int o=1;o<27;++o) for(int dx=-1;dx<=1;++dx)for(int dy=-1;dy<=1;++dy)for(int dz=-1;dz<=1;++dz){ int s[3]; sgn_of(o,s); int d[3]={dx,dy,dz}; bool want=true; for(int k=0;k<3;++k) if(s[k]!=0 && d[k]*s[k]<=0) want=false; bool got=TravelDirections::is_compatible_output_direction(CoordinateVector<>(dx,dy,dz),o); if(got!=want){++bad; if(bad<10)printf("compat out %d d=%d%d%d got %d want %d\n",o,dx,dy,dz,got,want);} 
    bool wanti=true; for(int k=0;k<3;++k) if(s[k]!=0 && d[k]*s[k]>=0) wanti=false; bool goti=TravelDirections::is_compatible_input_direction(CoordinateVector<>(dx,dy,dz),o); if(goti!=wanti){++bad; if(bad<10)printf("compat in %d d=%d%d%d got %d want %d\n",o,dx,dy,dz,goti,wanti);} }
  // masks
  for(int m=0;m<64;++m){ int xh=(m>>5)&1,xl=(m>>4)&1,yh=(m>>3)&1,yl=(m>>2)&1,zh=(m>>1)&1,zl=m&1; int got=TravelDirections::get_output_direction(m); bool valid=!(xh&&xl)&&!(yh&&yl)&&!(zh&&zl); if(!valid){ if(got!=-1){++bad; printf("mask %d should be invalid\n",m);} continue;} int s[3]; if(got<0){++bad; printf("mask %d invalid?\n",m); continue;} sgn_of(got,s); if(s[0]!=xh-xl||s[1]!=yh-yl||s[2]!=zh-zl){++bad; printf("mask %d wrong dir %d\n",m,got);} }
  printf("table checks bad=%ld\n",bad);
  // wiring
  long wbad=0, wcases=0;
  HomogeneousDensityFunction fn(1.,100.);
  for(int nx=1;nx<=3;++nx)for(int ny=1;ny<=3;++ny)for(int nz=1;nz<=3;++nz)for(int per=0;per<8;++per){
    Box<> box(CoordinateVector<>(0.),CoordinateVector<>(1.));
    DensitySubGridCreator<DensitySubGrid> g(box,CoordinateVector<int_fast32_t>(nx,ny,nz),CoordinateVector<int_fast32_t>(nx,ny,nz),CoordinateVector<bool>(per&1,per&2,per&4));
    g.initialize(fn); ++wcases; int N[3]={nx,ny,nz}; bool P[3]={(bool)(per&1),(bool)(per&2),(bool)(per&4)};
    for(int s=0;s<nx*ny*nz;++s){ int c[3]={s/(ny*nz),(s/nz)%ny,s%nz}; DensitySubGrid&sg=*g.get_subgrid((size_t)s);
      for(int o=0;o<27;++o){ int sg3[3]; sgn_of(o,sg3); int t[3]; bool outside=false; for(int k=0;k<3;++k){ t[k]=c[k]+sg3[k]; if(t[k]<0||t[k]>=N[k]){ if(P[k]) t[k]=(t[k]+N[k])%N[k]; else outside=true; } }
        uint_fast32_t want= outside? NEIGHBOUR_OUTSIDE : (uint_fast32_t)((t[0]*ny+t[1])*nz+t[2]); if(sg.get_neighbour(o)!=want){ ++wbad; if(wbad<10) printf("wiring n=%d%d%d per=%d s=%d o=%d got %u want %u\n",nx,ny,nz,per,s,o,(unsigned)sg.get_neighbour(o),(unsigned)want);} } }
    // copies: all level assignments in {0,1,2} if <=4 subgrids
    int NS=nx*ny*nz; if(NS<=4){ int tot=1; for(int i=0;i<NS;++i)tot*=3; for(int code=0;code<tot;++code){ std::vector<uint_fast8_t> lev(NS); int cc=code; for(int i=0;i<NS;++i){lev[i]=cc%3; cc/=3;}
        DensitySubGridCreator<DensitySubGrid> g2(box,CoordinateVector<int_fast32_t>(nx,ny,nz),CoordinateVector<int_fast32_t>(nx,ny,nz),CoordinateVector<bool>(per&1,per&2,per&4)); g2.initialize(fn); g2.create_copies(lev); ++wcases;
        size_t A=g2.number_of_actual_subgrids(); size_t expectA=NS; for(int i=0;i<NS;++i) expectA+=(1u<<lev[i])-1; if(A!=expectA){++wbad; printf("copy count\n");}
        // original of each subgrid: originals first; copies grouped per original in order
        std::vector<size_t> orig(A); for(int i=0;i<NS;++i)orig[i]=i; { size_t k=NS; for(int i=0;i<NS;++i) for(unsigned j=1;j<(1u<<lev[i]);++j) orig[k++]=i; }
        for(size_t s2=0;s2<A;++s2){ DensitySubGrid&sg=*g2.get_subgrid(s2); DensitySubGrid&og=*g2.get_subgrid(orig[s2]);
          if(sg.get_neighbour(0)!=s2){ ++wbad; if(wbad<10) printf("self ngb of %zu is %u (levels code %d n=%d%d%d per %d)\n",s2,(unsigned)sg.get_neighbour(0),code,nx,ny,nz,per);} 
          for(int o=1;o<27;++o){ uint_fast32_t a=sg.get_neighbour(o), b=og.get_neighbour(o); if(b==NEIGHBOUR_OUTSIDE){ if(a!=NEIGHBOUR_OUTSIDE){++wbad; if(wbad<10)printf("copy has ngb where original has none\n");} } else { if(a==NEIGHBOUR_OUTSIDE||a>=A||orig[a]!=b){ ++wbad; if(wbad<10) printf("copy ngb mismatch s=%zu o=%d a=%u b=%u code=%d n=%d%d%d per=%d\n",s2,o,(unsigned)a,(unsigned)b,code,nx,ny,nz,per);} } } }
      } }
  }
  printf("wiring cases=%ld bad=%ld\n",wcases,wbad);
}
