import sys, itertools, collections
def build(nx,ny,nz,per):
    N=nx*ny*nz
    def idx(i,j,k): return (i*ny+j)*nz+k
    def ngb(s,axis,sign):
        i,j,k = s//(ny*nz), (s//nz)%ny, s%nz
        c=[i,j,k]; n=[nx,ny,nz]
        c[axis]+=sign
        if c[axis]<0 or c[axis]>=n[axis]:
            if per[axis]: c[axis]%=n[axis]
            else: return None
        return idx(*c)
    tasks=[] # (type, subgrid, locks)
    slot={}
    def add(s,i,typ,locks):
        slot[(s,i)]=len(tasks); tasks.append((typ,s,tuple(sorted(set(locks)))))
    for s in range(N):
        add(s,0,'gi',[s])
        for a in range(3):
            p=ngb(s,a,+1)
            if p is None: add(s,1+2*a,'gb',[s])
            else: add(s,1+2*a,'gn',[s,p])
            if ngb(s,a,-1) is None: add(s,2+2*a,'gb',[s])
        add(s,7,'sl',[s]); add(s,8,'pp',[s]); add(s,9,'fi',[s])
        for a in range(3):
            p=ngb(s,a,+1)
            if p is None: add(s,10+2*a,'fb',[s])
            else: add(s,10+2*a,'fn',[s,p])
            if ngb(s,a,-1) is None: add(s,11+2*a,'fb',[s])
        add(s,16,'uc',[s]); add(s,17,'up',[s])
    children=collections.defaultdict(list)
    for s in range(N):
        gs=[slot[(s,0)]]
        for a in range(3):
            gs.append(slot[(s,1+2*a)])
            gs.append(slot[(s,2+2*a)] if (s,2+2*a) in slot else slot[(ngb(s,a,-1),1+2*a)])
        for g in gs: children[g].append(slot[(s,7)])
        children[slot[(s,7)]].append(slot[(s,8)])
        fs=[slot[(s,9)]]
        for a in range(3):
            fs.append(slot[(s,10+2*a)])
            fs.append(slot[(s,11+2*a)] if (s,11+2*a) in slot else slot[(ngb(s,a,-1),10+2*a)])
        for f in fs: children[slot[(s,8)]].append(f)
        for f in fs: children[f].append(slot[(s,16)])
        children[slot[(s,16)]].append(slot[(s,17)])
    parents=[0]*len(tasks)
    for t,cs in children.items():
        for c in cs: parents[c]+=1
    return tasks,children,parents
def explore(nx,ny,nz,per,W,cap=3000000):
    tasks,children,parents=build(nx,ny,nz,per)
    T=len(tasks)
    init=(tuple(parents), frozenset(t for t in range(T) if parents[t]==0), tuple([None]*W), 0)
    # state: (counters, ready set, running per worker (sorted - symmetric), done bitmask)
    seen={init}; frontier=[init]; trans=0; dead=0
    while frontier:
        nf=[]
        for st in frontier:
            cnt,ready,run,done=st
            held=set()
            for r in run:
                if r is not None: held.update(tasks[r][2])
            succ=[]
            # pop
            if None in run:
                for t in ready:
                    if not (set(tasks[t][2]) & held):
                        nr=list(run); nr[nr.index(None)]=t
                        succ.append((cnt,ready-{t},tuple(sorted(nr,key=lambda x:-1 if x is None else x)),done))
            for r in set(run):
                if r is None: continue
                c=list(cnt); nready=set(ready)
                for ch in children.get(r,[]):
                    c[ch]-=1
                    if c[ch]==0: nready.add(ch)
                nr=list(run); nr[nr.index(r)]=None
                succ.append((tuple(c),frozenset(nready),tuple(sorted(nr,key=lambda x:-1 if x is None else x)),done|(1<<r)))
            if not succ and done!=(1<<T)-1: dead+=1
            for s2 in succ:
                trans+=1
                if s2 not in seen:
                    seen.add(s2); nf.append(s2)
                    if len(seen)>cap: return T,len(seen),trans,dead,'CAP'
        frontier=nf
    return T,len(seen),trans,dead,'done'
for cfg in [((1,1,1),(0,0,0),2),((1,1,1),(1,0,0),2),((2,1,1),(0,0,0),2),((2,1,1),(1,0,0),2),((2,1,1),(0,0,0),3),((3,1,1),(0,0,0),2),((2,2,1),(0,0,0),2)]:
    (n,per,W)=cfg
    print(cfg, explore(n[0],n[1],n[2],per,W)); sys.stdout.flush()
