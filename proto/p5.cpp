#include "IonizationStateCalculator.hpp"
#include <cstdio>
#include <cmath>
#include <csetjmp>
#include <csignal>
static sigjmp_buf jb; static void on_abort(int){ siglongjmp(jb,1); }
int main(){
  signal(SIGABRT,on_abort); freopen("/dev/null","w",stderr);
  long n=0, aborts=0, oob=0, nan=0; int shown=0;
  for (double lj=-22; lj<=2; lj+=0.5) for (double rhe : {0., 1e-6, 1e-3, 0.1, 0.5, 1., 3.})
  for (double ln=4; ln<=12; ln+=1) for (double T : {1e2,1e3,5e3,1e4,3e4,1e5}) for (double AHe : {0.05,0.1,0.15}) {
    double jH=std::pow(10.,lj), jHe=rhe*jH, nH=std::pow(10.,ln);
    double alphaH=2.7e-19*std::pow(T/1e4,-0.75), alphaHe=4.3e-19*std::pow(T/1e4,-0.7);
    double h0=-1,he0=-1; ++n;
    if (sigsetjmp(jb,1)==0){
      IonizationStateCalculator::compute_ionization_states_hydrogen_helium(alphaH,alphaHe,jH,jHe,nH,AHe,T,h0,he0);
      if (h0!=h0||he0!=he0) { ++nan; if(shown++<5) printf("NaN jH=%g jHe=%g n=%g T=%g AHe=%g -> %g %g\n",jH,jHe,nH,T,AHe,h0,he0);} 
      else if (h0<-1e-12||h0>1+1e-12||he0<-1e-12||he0>1+1e-12) { ++oob; if(shown++<10) printf("OOB jH=%g jHe=%g n=%g T=%g AHe=%g -> %.17g %.17g\n",jH,jHe,nH,T,AHe,h0,he0);} 
    } else { ++aborts; signal(SIGABRT,on_abort); if(shown++<10) printf("ABORT jH=%g jHe=%g n=%g T=%g AHe=%g\n",jH,jHe,nH,T,AHe); }
  }
  printf("n=%ld aborts=%ld oob=%ld nan=%ld\n",n,aborts,oob,nan);
}
