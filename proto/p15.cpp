#include "VernerCrossSections.hpp"
#include "VernerRecombinationRates.hpp"
#include "ChargeTransferRates.hpp"
#include <cstdio>
#include <cmath>
int main(){
  VernerCrossSections cs; VernerRecombinationRates rr;
  long bad=0;
  for(int ion=0; ion<NUMBER_OF_IONNAMES; ++ion){
    double first=-1; double prev=0; bool neg=false,nonfin=false;
    for(int k=0;k<4000;++k){ double nu=3.288e15*0.5*std::pow(200.,k/3999.); double s=cs.get_cross_section(ion,nu); if(!(s==s)||std::isinf(s)) nonfin=true; if(s<0) neg=true; if(s>0 && first<0) first=nu; }
    printf("ion %2d %-6s first nonzero at %.4f nu_H (%.2f eV) neg=%d nonfinite=%d ; ",ion,get_ion_name(ion).c_str(),first/3.288e15,first/3.288e15*13.6,neg,nonfin);
    // recombination
    double pr=1e300; bool mono=true,pos=true,fin=true; for(int k=0;k<400;++k){ double T=10*std::pow(1e8,k/399.); double a=rr.get_recombination_rate(ion,T); if(!(a==a)||std::isinf(a)) fin=false; if(a<0) pos=false; if(T<=1e5 && !(a>0)) pos=false; if(a>pr) mono=false; pr=a; }
    printf("rec: finite=%d positive=%d monotone=%d\n",fin,pos,mono);
  }
}
