#include "ExactRiemannSolver.hpp"
#include <cstdio>
#include <cmath>
#include <map>
#include <string>
typedef long double LD;
struct Ref { LD g; 
  LD f(LD p, LD rho, LD P) const { LD a=sqrtl(g*P/rho); if(p>P){ LD A=2/((g+1)*rho), B=(g-1)/(g+1)*P; return (p-P)*sqrtl(A/(p+B)); } return 2*a/(g-1)*(powl(p/P,(g-1)/(2*g))-1); }
  // returns false if vacuum generated
  bool star(LD rL,LD uL,LD PL,LD rR,LD uR,LD PR,LD&ps,LD&us) const { LD aL=sqrtl(g*PL/rL), aR=sqrtl(g*PR/rR); if(2*(aL+aR)/(g-1)<=uR-uL) return false; LD lo=0, hi=1; while(f(hi,rL,PL)+f(hi,rR,PR)+uR-uL<0) hi*=2; for(int i=0;i<300;++i){ LD mid=0.5L*(lo+hi); if(f(mid,rL,PL)+f(mid,rR,PR)+uR-uL<0) lo=mid; else hi=mid; } ps=0.5L*(lo+hi); us=0.5L*(uL+uR)+0.5L*(f(ps,rR,PR)-f(ps,rL,PL)); return true; }
  void sample(LD rL,LD uL,LD PL,LD rR,LD uR,LD PR,LD ps,LD us,LD S,LD&r,LD&u,LD&P) const {
    if(S<=us){ LD a=sqrtl(g*PL/rL); if(ps>PL){ LD SL=uL-a*sqrtl((g+1)/(2*g)*ps/PL+(g-1)/(2*g)); if(S<=SL){r=rL;u=uL;P=PL;} else { r=rL*((ps/PL+(g-1)/(g+1))/((g-1)/(g+1)*ps/PL+1)); u=us;P=ps; } } else { LD SH=uL-a; LD as=a*powl(ps/PL,(g-1)/(2*g)); LD ST=us-as; if(S<=SH){r=rL;u=uL;P=PL;} else if(S>ST){ r=rL*powl(ps/PL,1/g); u=us; P=ps; } else { LD c=2/(g+1)+(g-1)/((g+1)*a)*(uL-S); r=rL*powl(c,2/(g-1)); u=2/(g+1)*(a+(g-1)/2*uL+S); P=PL*powl(c,2*g/(g-1)); } } }
    else { LD a=sqrtl(g*PR/rR); if(ps>PR){ LD SR=uR+a*sqrtl((g+1)/(2*g)*ps/PR+(g-1)/(2*g)); if(S>=SR){r=rR;u=uR;P=PR;} else { r=rR*((ps/PR+(g-1)/(g+1))/((g-1)/(g+1)*ps/PR+1)); u=us;P=ps; } } else { LD SH=uR+a; LD as=a*powl(ps/PR,(g-1)/(2*g)); LD ST=us+as; if(S>=SH){r=rR;u=uR;P=PR;} else if(S<=ST){ r=rR*powl(ps/PR,1/g); u=us; P=ps; } else { LD c=2/(g+1)-(g-1)/((g+1)*a)*(uR-S); r=rR*powl(c,2/(g-1)); u=2/(g+1)*(-a+(g-1)/2*uR+S); P=PR*powl(c,2*g/(g-1)); } } } }
};
int main(){
  long n=0,bad=0; std::map<std::string,long> kinds; int shown=0;
  double rs[]={1e-3,0.1,1,10,1e3};
  for(double g:{1.1,1.4,5./3.,2.}){ ExactRiemannSolver s(g); Ref ref{(LD)g};
   for(double rL:rs)for(double PL:rs)for(double rR:rs)for(double PR:rs) for(int k=-12;k<=12;++k){
     double aL=std::sqrt(g*PL/rL), aR=std::sqrt(g*PR/rR); double du=k*0.5*(aL+aR); double uL=0.3, uR=uL+du;
     LD ps,us; if(!ref.star(rL,uL,PL,rR,uR,PR,ps,us)) continue;
     for(double S : {0., (double)us-0.5*aL, (double)us+0.5*aR, uL-2*aL, uR+2*aR, (double)us*(1+1e-9)+1e-12, (double)us*(1-1e-9)-1e-12}){
       { // skip S near discontinuities (shocks, contact) of the reference
         LD aLl=sqrtl((LD)g*PL/rL), aRl=sqrtl((LD)g*PR/rR); bool near=false; LD eps=1e-6L*(aLl+aRl);
         if(fabsl(S-us)<eps) near=true;
         if(ps>PL){ LD SL=uL-aLl*sqrtl(((LD)g+1)/(2*(LD)g)*ps/PL+((LD)g-1)/(2*(LD)g)); if(fabsl(S-SL)<eps) near=true; }
         if(ps>PR){ LD SR=uR+aRl*sqrtl(((LD)g+1)/(2*(LD)g)*ps/PR+((LD)g-1)/(2*(LD)g)); if(fabsl(S-SR)<eps) near=true; }
         if(near) continue; }
       double r,u,P; s.solve(rL,uL,PL,rR,uR,PR,r,u,P,S); LD rr,ur,Pr; ref.sample(rL,uL,PL,rR,uR,PR,ps,us,S,rr,ur,Pr); ++n;
       double tol=3e-7; bool b=false; std::string why;
       if(!(r==r&&u==u&&P==P)||r<0||P<0){b=true; why="nonphysical";}
       else { if(std::abs(r-(double)rr)>tol*(double)rr) {b=true; why="rho";} if(std::abs(P-(double)Pr)>tol*(double)Pr){b=true; why="P";} if(std::abs(u-(double)ur)>tol*(aL+aR)){b=true; why="u";} }
       if(b){ // tolerate if S within 1e-6 of a wave (side switch)
         ++bad; kinds[why]++; if(shown++<8) printf("BAD g=%g L=(%g,%g,%g) R=(%g,%g,%g) S=%g got (%g,%g,%g) ref (%Lg,%Lg,%Lg) ps=%Lg us=%Lg\n",g,rL,uL,PL,rR,uR,PR,S,r,u,P,rr,ur,Pr,ps,us); }
     } } }
  printf("n=%ld bad=%ld\n",n,bad); for(auto&k:kinds) printf(" %s %ld\n",k.first.c_str(),k.second);
}
