#include "ExactGeometricTests.hpp"
#include <boost/multiprecision/cpp_int.hpp>
#include <cstdio>
#include <cmath>
#include <vector>
using boost::multiprecision::cpp_int;
static cpp_int mant(double x){ int e; double m=std::frexp(x,&e); return cpp_int((long long)std::ldexp(m,53)); }
static int sgn(const cpp_int&v){ return v>0?1:(v<0?-1:0); }
static cpp_int det3(cpp_int m[3][3]){ return m[0][0]*(m[1][1]*m[2][2]-m[1][2]*m[2][1]) - m[0][1]*(m[1][0]*m[2][2]-m[1][2]*m[2][0]) + m[0][2]*(m[1][0]*m[2][1]-m[1][1]*m[2][0]); }
static int insphere_ref(const double p[5][3]){ cpp_int M[4][4]; for(int i=0;i<4;++i){ cpp_int n=0; for(int j=0;j<3;++j){ M[i][j]=mant(p[i][j])-mant(p[4][j]); n+=M[i][j]*M[i][j]; } M[i][3]=n; }
  // expand along last column
  cpp_int det=0; for(int r=0;r<4;++r){ cpp_int m[3][3]; int rr=0; for(int i=0;i<4;++i){ if(i==r)continue; for(int j=0;j<3;++j)m[rr][j]=M[i][j]; ++rr;} cpp_int cof=det3(m); if((r+3)%2) cof=-cof; det+=M[r][3]*cof; }
  return sgn(det); }
int main(){
  const double ulp=std::ldexp(1.,-52);
  double B[3]={1.,1.+ulp,1.5};
  long n=0,bad_exact=0,bad_adapt=0,zeros=0, signflip=0; int shown=0;
  std::vector<int> idx(15,0);
  // determine sign convention relative to code on a generic nondegenerate sample
  while(true){
    double p[5][3]; for(int i=0;i<15;++i) p[i/3][i%3]=B[idx[i]];
    CoordinateVector<> a(p[0][0],p[0][1],p[0][2]),b(p[1][0],p[1][1],p[1][2]),c(p[2][0],p[2][1],p[2][2]),d(p[3][0],p[3][1],p[3][2]),e(p[4][0],p[4][1],p[4][2]);
    int r=insphere_ref(p); int ex=ExactGeometricTests::insphere_exact(a,b,c,d,e); int ad=ExactGeometricTests::insphere_adaptive(a,b,c,d,e);
    ++n; if(r==0)++zeros; if(ex!=r && ex==-r) ++signflip; else if(ex!=r){++bad_exact;} if(ad!=ex){++bad_adapt; if(shown++<5) printf("ADAPT!=EXACT ex=%d ad=%d\n",ex,ad);} 
    int k=0; while(k<15 && ++idx[k]==3){ idx[k]=0; ++k;} if(k==15) break;
  }
  printf("insphere: n=%ld zeros=%ld signflip(convention)=%ld bad_exact=%ld adapt!=exact=%ld\n",n,zeros,signflip,bad_exact,bad_adapt);
}
