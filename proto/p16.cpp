// probe: rename interposition + crash enumeration for RestartManager; RandomGenerator save/restore
#include "RestartManager.hpp"
#include "RandomGenerator.hpp"
#include <cstdio>
#include <cstdlib>
#include <sys/syscall.h>
#include <sys/wait.h>
#include <unistd.h>
#include <fcntl.h>
static int g_crash_at = -1, g_opcount = 0;
extern "C" int rename(const char *a, const char *b) {
  if (g_opcount++ == g_crash_at) _exit(77);
  int r = syscall(SYS_renameat, AT_FDCWD, a, AT_FDCWD, b);
  if (g_opcount - 1 == -2) _exit(78);
  return r;
}
static void point() { if (g_opcount++ == g_crash_at) _exit(77); }
static long readdump(const char*name){ FILE*f=fopen(name,"rb"); if(!f) return -1; long v[64]; size_t n=fread(v,sizeof(long),64,f); fclose(f); if(n!=64) return -2; for(size_t i=1;i<64;++i) if(v[i]!=v[0]) return -3; return v[0]; }
int main(){
  // RNG save/restore at every position <= 40
  { long bad=0; for(int p=0;p<=40;++p){ RandomGenerator g(42); for(int i=0;i<p;++i) g.get_uniform_random_double(); { RestartWriter w("rng.dump"); g.write_restart_file(w);} RestartReader r("rng.dump"); RandomGenerator h(r); for(int i=0;i<100;++i) if(g.get_uniform_random_double()!=h.get_uniform_random_double()) ++bad; } RandomGenerator a(0), b(1); bool same=true; for(int i=0;i<50;++i) if(a.get_uniform_random_double()!=b.get_uniform_random_double()) same=false; printf("rng restore mismatches=%ld seed0==seed1:%d\n",bad,same); }
  // crash enumeration with B=1 (works on pinned tree)
  int B=1; long hist=0, lost=0;
  for (int n=1;n<=4;++n) for (int crash=0; crash<40; ++crash){
    system("rm -rf cdir && mkdir cdir");
    pid_t pid=fork();
    if(pid==0){ RestartManager m("cdir",0.,B,1e9,""); g_opcount=0; g_crash_at=-1;
      for(int i=0;i<n;++i){ if(i==n-1){ g_crash_at=crash; g_opcount=0; } RestartWriter*w=m.get_restart_writer(); point(); for(int k=0;k<64;++k){ long v=100+i; w->write(v); if(k==31) point(); } point(); delete w; point(); }
      _exit(0); }
    int st; waitpid(pid,&st,0); if(!(WIFEXITED(st)&&WEXITSTATUS(st)==77)) { if(crash>8) break; continue; }
    ++hist;
    long d=readdump("cdir/restart.dump"), b0=readdump("cdir/restart.0.back");
    long prev=100+n-2; bool ok = (n==1) || d==prev || b0==prev || d==prev+1; 
    if(!ok){ ++lost; printf("LOST n=%d crash=%d dump=%ld back0=%ld\n",n,crash,d,b0);} }
  printf("crash histories=%ld lost=%ld\n",hist,lost);
}
