#include "HLLCRiemannSolver.hpp"
#include <cstdio>
#include <cmath>
// textbook HLLC (Toro 2009, 10.4) with the same wave speed estimates (PVRS pressure based)
static void hllc_ref(double g, double rL,double uL,double pL,double rR,double uR,double pR,double F[3]){
  double aL=std::sqrt(g*pL/rL), aR=std::sqrt(g*pR/rR);
  double ppv=0.5*(pL+pR)-0.125*(uR-uL)*(rL+rR)*(aL+aR); double ps=std::max(0.,ppv);
  double qL= ps>pL? std::sqrt(1+(g+1)/(2*g)*(ps/pL-1)):1, qR= ps>pR? std::sqrt(1+(g+1)/(2*g)*(ps/pR-1)):1;
  double SL=uL-aL*qL, SR=uR+aR*qR;
  double Ss=(pR-pL+rL*uL*(SL-uL)-rR*uR*(SR-uR))/(rL*(SL-uL)-rR*(SR-uR));
  double EL=pL/(g-1)+0.5*rL*uL*uL, ER=pR/(g-1)+0.5*rR*uR*uR;
  double FL[3]={rL*uL, rL*uL*uL+pL, (EL+pL)*uL}, FR[3]={rR*uR, rR*uR*uR+pR,(ER+pR)*uR};
  if (SL>=0){ for(int i=0;i<3;++i)F[i]=FL[i]; return;} if (SR<=0){ for(int i=0;i<3;++i)F[i]=FR[i]; return;}
  if (Ss>=0){ double rs=rL*(SL-uL)/(SL-Ss); double U[3]={rs, rs*Ss, rs*(EL/rL+(Ss-uL)*(Ss+pL/(rL*(SL-uL))))}; double UL[3]={rL,rL*uL,EL}; for(int i=0;i<3;++i)F[i]=FL[i]+SL*(U[i]-UL[i]); }
  else { double rs=rR*(SR-uR)/(SR-Ss); double U[3]={rs, rs*Ss, rs*(ER/rR+(Ss-uR)*(Ss+pR/(rR*(SR-uR))))}; double UR[3]={rR,rR*uR,ER}; for(int i=0;i<3;++i)F[i]=FR[i]+SR*(U[i]-UR[i]); }
}
int main(){
  double g=5./3.; HLLCRiemannSolver h(g);
  double cases[][6]={{1,0,1,0.125,0,0.1},{1,0.5,1,1,-0.5,1},{1,0.3,1,0.5,-0.2,2},{1,-2,0.4,1,2,0.4},{1,2,1,1,2.5,1}};
  for(auto&c:cases){ double m,E; CoordinateVector<> p; h.solve_for_flux(c[0],CoordinateVector<>(c[1],0,0),c[2],c[3],CoordinateVector<>(c[4],0,0),c[5],m,p,E,CoordinateVector<>(1,0,0)); double F[3]; hllc_ref(g,c[0],c[1],c[2],c[3],c[4],c[5],F); printf("code: %.12g %.12g %.12g | ref: %.12g %.12g %.12g\n",m,p.x(),E,F[0],F[1],F[2]); }
}
