// prototype: in-process exhaustive interleaving exploration with state hashing
// on the real ThreadSafeVector (exploration only, not committed)
#include "ThreadSafeVector.hpp"
#include "VerifHooks.hpp"
#include <algorithm>
#include <chrono>
#include <condition_variable>
#include <cstdio>
#include <cstring>
#include <functional>
#include <mutex>
#include <set>
#include <thread>
#include <unordered_set>
#include <vector>
#include <unistd.h>

namespace cmi_verif {
struct T {
  int id;
  bool finished = false, blocking = false;
  int kind = OP_START;
  const volatile void *addr = nullptr;
  long nsync = 0;
  unsigned long obs = 1469598103934665603UL;
  std::condition_variable cv;
};
static std::mutex mtx;
static std::condition_variable main_cv;
static std::vector< T * > th;
static int running = -1;
static bool active = false;
static thread_local T *me = nullptr;
static std::vector< int > prefix, choices, ncand;
static std::vector< unsigned long > hashes;
static long clk = 0;
static std::vector< long > last_run;
static std::function< unsigned long() > shared_hash;
static int verdict = 0;

void event(const char *, long, long, long) {}
int thread_index() { return me ? me->id : 0; }
void observe(unsigned long v) {
  if (active && me)
    me->obs = (me->obs ^ v) * 1099511628211UL;
}
static bool enabled(T *t) {
  if (t->finished)
    return false;
  if (t->blocking && t->kind == OP_TRYLOCK)
    return *(const volatile unsigned char *)t->addr == 0;
  return true;
}
static unsigned long state_hash() {
  unsigned long h = shared_hash();
  for (T *t : th) {
    h = (h ^ (unsigned long)t->finished) * 1099511628211UL;
    h = (h ^ (unsigned long)t->nsync) * 1099511628211UL;
    h = (h ^ t->obs) * 1099511628211UL;
  }
  return h;
}
static int choose(T *cur) {
  std::vector< int > cand;
  if (cur && enabled(cur) && cur->kind != OP_YIELD)
    cand.push_back(cur->id);
  std::vector< std::pair< long, int > > o;
  for (T *t : th)
    if (t != cur && enabled(t))
      o.push_back({last_run[t->id], t->id});
  std::sort(o.begin(), o.end());
  for (auto &x : o)
    cand.push_back(x.second);
  if (cur && enabled(cur) && cur->kind == OP_YIELD)
    cand.push_back(cur->id);
  if (cand.empty())
    return -1;
  size_t pos = choices.size();
  int c = pos < prefix.size() ? prefix[pos] : 0;
  if (c >= (int)cand.size()) {
    fprintf(stderr, "divergence\n");
    _exit(99);
  }
  hashes.push_back(state_hash());
  choices.push_back(c);
  ncand.push_back(cand.size());
  last_run[cand[c]] = ++clk;
  return cand[c];
}
void sync_point(int kind, const volatile void *addr) {
  if (!active || !me)
    return;
  std::unique_lock< std::mutex > lk(mtx);
  me->kind = kind;
  me->addr = addr;
  me->nsync++;
  int next = choose(me);
  if (next < 0) {
    verdict = 1;
    // deadlock: release everybody
    for (T *t : th)
      t->finished = true;
    running = -2;
    main_cv.notify_all();
    for (T *t : th)
      t->cv.notify_all();
    return;
  }
  if (next != me->id) {
    running = next;
    th[next]->cv.notify_one();
    T *self = me;
    self->cv.wait(lk, [&] { return running == self->id || running == -2; });
  }
}
void blocking_begin() {
  if (active && me)
    me->blocking = true;
}
void blocking_end() {
  if (active && me)
    me->blocking = false;
}
void yield_point() { sync_point(OP_YIELD, nullptr); }
void parallel_region(int, const std::function< void() > &) {}

static void run(const std::vector< std::function< void() > > &bodies) {
  int n = bodies.size();
  for (T *t : th)
    delete t;
  th.clear();
  choices.clear();
  ncand.clear();
  hashes.clear();
  clk = 0;
  last_run.assign(n, 0);
  verdict = 0;
  for (int i = 0; i < n; ++i) {
    T *t = new T();
    t->id = i;
    th.push_back(t);
  }
  std::vector< std::thread > ts;
  active = true;
  running = -1;
  for (int i = 0; i < n; ++i) {
    ts.emplace_back([i, &bodies]() {
      me = th[i];
      {
        std::unique_lock< std::mutex > lk(mtx);
        me->cv.wait(lk, [&] { return running == me->id || running == -2; });
      }
      bodies[i]();
      std::unique_lock< std::mutex > lk(mtx);
      me->finished = true;
      bool all = true;
      for (T *t : th)
        all = all && t->finished;
      if (all) {
        running = -2;
        main_cv.notify_all();
      } else if (running != -2) {
        int next = choose(nullptr);
        if (next < 0) {
          verdict = 1;
          running = -2;
          main_cv.notify_all();
        } else {
          running = next;
          th[next]->cv.notify_one();
        }
      }
      me = nullptr;
    });
  }
  {
    std::unique_lock< std::mutex > lk(mtx);
    int first = choose(nullptr);
    running = first;
    th[first]->cv.notify_one();
    main_cv.wait(lk, [&] { return running == -2; });
  }
  for (auto &t : ts)
    t.join();
  active = false;
}
} // namespace cmi_verif

using namespace cmi_verif;

int main(int argc, char **argv) {
  int size = atoi(argv[1]);     // pool size
  int nthreads = atoi(argv[2]); // threads
  int nops = atoi(argv[3]);     // get/free pairs per thread
  bool use_hash = argc > 4 ? atoi(argv[4]) : 1;
  long maxexec = argc > 5 ? atol(argv[5]) : 5000000;
  std::vector< std::vector< int > > work;
  work.push_back({});
  std::unordered_set< unsigned long > visited;
  long nexec = 0, nviol = 0, npoints = 0;
  std::set< std::string > outcomes;
  auto t0 = std::chrono::steady_clock::now();
  while (!work.empty() && nexec < maxexec) {
    prefix = work.back();
    work.pop_back();
    ThreadSafeVector< int > *vec = new ThreadSafeVector< int >(size, "p");
    std::vector< int > owner(size, -1);
    bool violation = false;
    std::string hist;
    std::mutex hm;
    shared_hash = [&]() {
      unsigned long h = 1469598103934665603UL;
      h = (h ^ vec->_current_index._value.load()) * 1099511628211UL;
      h = (h ^ vec->_number_taken._value.load()) * 1099511628211UL;
      for (int i = 0; i < size; ++i)
        h = (h ^ (unsigned long)vec->_locks[i]._value.load()) * 1099511628211UL;
      for (int i = 0; i < size; ++i)
        h = (h ^ (unsigned long)(owner[i] + 1)) * 1099511628211UL;
      return h;
    };
    std::vector< std::function< void() > > bodies;
    for (int t = 0; t < nthreads; ++t) {
      bodies.push_back([&, t]() {
        for (int k = 0; k < nops; ++k) {
          size_t idx = vec->get_free_element_safe();
          if (idx < (size_t)size) {
            if (owner[idx] != -1)
              violation = true;
            owner[idx] = t;
            hist += char('a' + t);
            hist += char('0' + idx);
            // second op: free again (except the last round: keep)
            if (k + 1 < nops) {
              owner[idx] = -1;
              vec->free_element(idx);
            }
          } else {
            hist += char('a' + t);
            hist += 'F';
          }
        }
      });
    }
    run(bodies);
    ++nexec;
    npoints += choices.size();
    int held = 0;
    for (int i = 0; i < size; ++i)
      held += owner[i] != -1;
    if ((int)vec->get_number_of_active_elements() != held)
      violation = true;
    if (verdict)
      violation = true;
    if (violation) {
      ++nviol;
      if (nviol < 4)
        printf("VIOLATION hist=%s verdict=%d\n", hist.c_str(), verdict);
    }
    outcomes.insert(hist);
    // expand
    for (size_t i = prefix.size(); i < choices.size(); ++i) {
      if (use_hash) {
        if (visited.count(hashes[i]))
          break;
        visited.insert(hashes[i]);
      }
      for (int alt = 1; alt < ncand[i]; ++alt) {
        std::vector< int > np(choices.begin(), choices.begin() + i);
        np.push_back(alt);
        work.push_back(np);
      }
    }
    delete vec;
  }
  double secs = std::chrono::duration< double >(
                    std::chrono::steady_clock::now() - t0)
                    .count();
  printf("size=%d threads=%d ops=%d hash=%d: executions=%ld (left %zu) "
         "violations=%ld distinct_histories=%zu states=%zu avgpoints=%.1f "
         "wall=%.1fs\n",
         size, nthreads, nops, (int)use_hash, nexec, work.size(), nviol,
         outcomes.size(), visited.size(), nexec ? (double)npoints / nexec : 0.,
         secs);
  return nviol ? 1 : 0;
}
