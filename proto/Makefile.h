SRC=/tmp/cmi_scratch/srccopy
SHARED=AsciiFileDensityFunction AsciiFileDensityGridWriter AsciiFileTablePhotonSourceDistribution ChargeTransferRates CommandLineOption CommandLineParser DeRijckeRadiativeCooling FaucherGiguerePhotonSourceSpectrum HeliumLymanContinuumSpectrum HeliumTwoPhotonContinuumSpectrum HydrogenLymanContinuumSpectrum InterpolatedDensityFunction IonizationStateCalculator LineCoolingData MaskedPhotonSourceSpectrum MultiTracker ParameterFile Pegase3PhotonSourceSpectrum PhantomSnapshotDensityFunction PhotonSource PhysicalDiffuseReemissionHandler PlanckPhotonSourceSpectrum PopStarPhotonSourceSpectrum Signals SPHNGSnapshotDensityFunction SPHNGVoronoiGeneratorDistribution TemperatureCalculator VernerCrossSections VernerRecombinationRates WMBasicPhotonSourceSpectrum AmunSnapshotDensityFunction CastelliKuruczPhotonSourceSpectrum CMacIonizeSnapshotDensityFunction CMacIonizeVoronoiGeneratorDistribution FLASHSnapshotDensityFunction GadgetDensityGridWriter GadgetSnapshotDensityFunction GadgetSnapshotPhotonSourceDistribution
LEGACY=
TASK=TaskBasedIonizationSimulation TaskBasedRadiationHydrodynamicsSimulation
ALL=$(SHARED) $(LEGACY) $(TASK)
OBJ=$(addprefix objh/,$(addsuffix .o,$(ALL))) objh/CompilerInfo.o objh/ConfigurationInfo.o
CXXFLAGS=-DCMI_VERIF -DCMI_VERIF_PHOTONBUFFER_SIZE=3u -pthread -std=c++14 -O1 -w -Iinc -I$(SRC) -I/usr/include/hdf5/serial
all: libcmih.a
objh/%.o: $(SRC)/%.cpp
	g++ $(CXXFLAGS) -c $< -o $@
objh/%.o: %.cpp
	g++ $(CXXFLAGS) -c $< -o $@
libcmih.a: $(OBJ)
	ar rcs $@ $(OBJ)
