#include "YAMLDictionary.hpp"
#include <cstdio>
#include <sstream>
#include <vector>
#include <string>
#include <map>
#include <set>
#include <algorithm>
#include <csetjmp>
#include <csignal>
static sigjmp_buf jb; static void on_abort(int){ siglongjmp(jb,1); }
// independent printer: nested map
struct Node { std::map<std::string,Node> kids; std::string val; bool hasval=false; };
static void emit(const Node&n, int depth, std::ostream&o){ for(auto&k:n.kids){ for(int i=0;i<depth;++i)o<<"  "; if(k.second.hasval) o<<k.first<<": "<<k.second.val<<"\n"; else { o<<k.first<<":\n"; emit(k.second,depth+1,o);} } }
int main(){
  signal(SIGABRT,on_abort); freopen("/dev/null","w",stderr);
  std::vector<std::vector<std::string>> paths;
  std::vector<std::string> names={"a","b"};
  for(int len=1;len<=5;++len){ int tot=1<<len; for(int m=0;m<tot;++m){ std::vector<std::string> p; for(int i=0;i<len;++i) p.push_back(names[(m>>i)&1]); paths.push_back(p);} }
  int P=paths.size(); printf("paths=%d\n",P);
  long nsets=0,nvalid=0,nbad=0,nabort=0; int shown=0;
  auto key=[&](int i){ std::string k; for(size_t j=0;j<paths[i].size();++j){ if(j)k+=":"; k+=paths[i][j]; } return k; };
  auto isprefix=[&](int i,int j){ if(paths[i].size()>=paths[j].size()) return false; for(size_t q=0;q<paths[i].size();++q) if(paths[i][q]!=paths[j][q]) return false; return true; };
  for(int i=0;i<P;++i) for(int j=i;j<P;++j) for(int k=j;k<P;++k){
    std::set<int> S={i,j,k}; ++nsets;
    bool valid=true; for(int x:S) for(int y:S) if(x!=y && isprefix(x,y)) valid=false; if(!valid) continue; ++nvalid;
    Node root; int vi=0; std::map<std::string,std::string> expect;
    for(int x:S){ Node*n=&root; for(auto&c:paths[x]) n=&n->kids[c]; n->hasval=true; n->val="v"+std::to_string(vi++); expect[key(x)]=n->val; }
    std::stringstream in; emit(root,0,in);
    if(sigsetjmp(jb,1)==0){
      YAMLDictionary d(in); std::stringstream o1; d.print_contents(o1);
      std::string t1=o1.str(); YAMLDictionary d2(o1); std::stringstream o2; d2.print_contents(o2);
      bool ok=true; for(auto&e:expect){ if(!d.has_value(e.first)||d.get_value<std::string>(e.first)!=e.second) ok=false; if(!d2.has_value(e.first)||d2.get_value<std::string>(e.first)!=e.second) ok=false; }
      // count keys in d2 via printed value lines
      long nv=0; { std::stringstream s(o2.str()); std::string line; while(getline(s,line)) if(line.find(": ")!=std::string::npos) ++nv; }
      if(nv!=(long)expect.size()) ok=false;
      if(t1!=o2.str()) ok=false;
      if(!ok){ ++nbad; if(shown++<4){ printf("BAD input:\n%s-- printed:\n%s-- reprinted:\n%s\n", in.str().c_str(), t1.c_str(), o2.str().c_str()); } }
    } else { ++nabort; signal(SIGABRT,on_abort); if(shown++<4){ printf("ABORT on input:\n%s\n", in.str().c_str()); } }
  }
  printf("sets=%ld valid=%ld bad=%ld abort=%ld\n",nsets,nvalid,nbad,nabort);
}
