#include "HLLCRiemannSolver.hpp"
#include "ExactRiemannSolver.hpp"
#include "YAMLDictionary.hpp"
#include "RestartManager.hpp"
#include <sstream>
#include <cstdio>
int main(int argc, char**argv){
  // (a) vacuum with moving gas
  {
    HLLCRiemannSolver h(5./3.); ExactRiemannSolver e(5./3.);
    double m1,E1,m2,E2; CoordinateVector<> p1,p2; CoordinateVector<> n(1.,0.,0.);
    // left vacuum, right gas moving to the left slowly
    h.solve_for_flux(0.,CoordinateVector<>(0.),0., 1., CoordinateVector<>(-0.5,0.,0.), 1., m1,p1,E1,n);
    // mirror: right vacuum, left gas moving right
    h.solve_for_flux(1., CoordinateVector<>(0.5,0.,0.), 1., 0.,CoordinateVector<>(0.),0., m2,p2,E2,CoordinateVector<>(-1.,0.,0.)*(-1.));
    printf("HLLC left-vac: m=%g px=%g E=%g ; right-vac mirrored: m=%g px=%g E=%g (expect m1=-m2)\n", m1,p1.x(),E1,m2,p2.x(),E2);
    e.solve_for_flux(0.,CoordinateVector<>(0.),0., 1., CoordinateVector<>(-0.5,0.,0.), 1., m1,p1,E1,n);
    e.solve_for_flux(1., CoordinateVector<>(0.5,0.,0.), 1., 0.,CoordinateVector<>(0.),0., m2,p2,E2,n);
    printf("Exact left-vac: m=%g px=%g E=%g ; right-vac mirrored: m=%g px=%g E=%g\n", m1,p1.x(),E1,m2,p2.x(),E2);
  }
  // (c) printer
  {
    std::stringstream in; in << "a:\n  b:\n    c:\n      k: 1\nx:\n  y:\n    z:\n      w:\n        k: 2\n";
    YAMLDictionary d(in); std::stringstream out; d.print_contents(out);
    printf("--- printed:\n%s---\n", out.str().c_str());
    YAMLDictionary d2(out); std::stringstream out2; d2.print_contents(out2);
    printf("roundtrip equal: %d\n", out.str()==out2.str());
  }
  // (b) restart manager
  if (argc>1) {
    int nb = atoi(argv[1]);
    RestartManager m(".", 0., nb, 1e9, "");
    for (int i=0;i<4;++i){ RestartWriter *w = m.get_restart_writer(); w->write(i); delete w; printf("dump %d ok\n", i); }
  }
  return 0;
}
