---- MODULE T ----
EXTENDS Naturals
VARIABLES x, last
Init == x = 0 /\ last = "init"
Inc == x < 3 /\ x' = x + 1 /\ last' = "inc"
Next == Inc
Spec == Init /\ [][Next]_<<x,last>>
Inv == x <= 3
====
