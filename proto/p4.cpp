// probe: DensitySubGrid::interact vs long double reference on a lattice
#include "DensitySubGrid.hpp"
#include <cstdio>
#include <cmath>
#include <map>
#include <vector>
#include <string>
int main(){
  const int n[3]={2,3,1};
  double box[6]={0.,0.,0.,(double)n[0],(double)n[1],(double)n[2]};
  long ncase=0,nbad=0; std::map<std::string,long> kinds;
  for (int hx=0;hx<=2*n[0];++hx) for(int hy=0;hy<=2*n[1];++hy) for(int hz=0;hz<=2*n[2];++hz)
  for (int a=-2;a<=2;++a) for(int b=-2;b<=2;++b) for(int c=-2;c<=2;++c) {
    if(!a&&!b&&!c) continue;
    int h[3]={hx,hy,hz}, d[3]={a,b,c};
    // classify start: must the packet enter/travel inside? determine input direction
    // boundary flags: -1 low, +1 high, 0 interior
    int bf[3]; bool moving_out=false;
    for(int i=0;i<3;++i){ bf[i]= h[i]==0?-1:(h[i]==2*n[i]?1:0); }
    // a packet on a boundary must move inward in that coordinate to be "entering" via that element;
    // if it moves outward or parallel there, we treat the coordinate as interior (INSIDE semantics) only if not on upper boundary
    int cls[3]; bool skip=false;
    for(int i=0;i<3;++i){
      if(bf[i]==-1 && d[i]>0) cls[i]=-1; else if(bf[i]==1 && d[i]<0) cls[i]=1; else if (bf[i]==0) cls[i]=0; else { // on boundary moving outward/parallel
        if (bf[i]==1) skip=true; // upper boundary, not entering: outside half-open block
        else if (d[i]<0) skip=true; // lower boundary moving out: leaves immediately, skip
        else cls[i]=0; // lower boundary, parallel: inside (half-open)
      }
    }
    if(skip) continue;
    // input direction from cls via mask: use get_output_direction with index trick: entering through low x means came from x_low side
    DensitySubGrid grid(box, CoordinateVector<int_fast32_t>(n[0],n[1],n[2]));
    for(auto it=grid.begin(); it!=grid.end(); ++it){ it.get_ionization_variables().set_number_density(1.); it.get_ionization_variables().set_ionic_fraction(ION_H_n,1.); }
    CoordinateVector<int_fast32_t> ti(cls[0]<0?-1:(cls[0]>0?n[0]:0), cls[1]<0?-1:(cls[1]>0?n[1]:0), cls[2]<0?-1:(cls[2]>0?n[2]:0));
    int indir = grid.get_output_direction(ti); // element of this block through which we enter
    double nrm=std::sqrt((double)(a*a+b*b+c*c));
    CoordinateVector<> dir(a/nrm,b/nrm,c/nrm);
    if(!TravelDirections::is_compatible_input_direction(dir, indir)) { kinds["incompatible-class"]++; continue; }
    PhotonPacket ph; ph.set_position(CoordinateVector<>(0.5*hx,0.5*hy,0.5*hz)); ph.set_direction(dir);
    for(int ion=0;ion<NUMBER_OF_IONNAMES;++ion) ph.set_photoionization_cross_section(ion,0.); ph.set_photoionization_cross_section(ION_H_n,1.);
    ph.set_weight(1.); ph.set_energy(4e15); ph.set_target_optical_depth(1e30);
    int out = grid.interact(ph, indir);
    ++ncase;
    // reference: total path = distance to exit of box along d from start
    long double tmin=1e300L; 
    for(int i=0;i<3;++i){ if(d[i]>0) tmin=std::min(tmin,(long double)(2*n[i]-h[i])/d[i]); else if(d[i]<0) tmin=std::min(tmin,(long double)(0-h[i])/d[i]); }
    long double len = tmin*0.5L*nrm;
    double sum=0; for(auto it=grid.begin(); it!=grid.end(); ++it) sum+=it.get_ionization_variables().get_mean_intensity(ION_H_n);
    // expected exit class
    int ec[3]; for(int i=0;i<3;++i){ long double xe=h[i]+tmin*d[i]; ec[i]= (d[i]>0 && fabsl(xe-2*n[i])<1e-9L)?1:((d[i]<0&&fabsl(xe)<1e-9L)?-1:0); }
    CoordinateVector<int_fast32_t> te(ec[0]<0?-1:(ec[0]>0?n[0]:0), ec[1]<0?-1:(ec[1]>0?n[1]:0), ec[2]<0?-1:(ec[2]>0?n[2]:0));
    int eout = grid.get_output_direction(te);
    bool bad=false;
    if (std::abs(sum-(double)len)>1e-12*(1+len)) { bad=true; kinds["pathsum"]++; }
    if (out!=eout) { bad=true; kinds["exitclass"]++; }
    if(bad && nbad<8){ printf("BAD start h=(%d,%d,%d) d=(%d,%d,%d) in=%d out=%d eout=%d sum=%.15g len=%.15Lg\n",hx,hy,hz,a,b,c,indir,out,eout,sum,len);} 
    if(bad)++nbad;
  }
  printf("cases=%ld bad=%ld\n",ncase,nbad); for(auto&k:kinds) printf("  %s: %ld\n",k.first.c_str(),k.second);
}
