#include "TaskBasedRadiationHydrodynamicsSimulation.hpp"
#include "CommandLineParser.hpp"
#include "Timer.hpp"
#include <chrono>
#include <cstdio>
int main(int argc, char **argv) {
  CommandLineParser parser("CMacIonize");
  parser.add_required_option< std::string >("params", 'p', "param file");
  parser.add_option("threads", 't', "threads", COMMANDLINEOPTION_INTARGUMENT, "1");
  parser.add_option("dry-run", 'n', "dry", COMMANDLINEOPTION_NOARGUMENT, "false");
  TaskBasedRadiationHydrodynamicsSimulation::add_command_line_parameters(parser);
  parser.parse_arguments(argc, argv);
  Timer programtimer;
  auto t0 = std::chrono::steady_clock::now();
  int r = TaskBasedRadiationHydrodynamicsSimulation::do_simulation(parser, true, programtimer, nullptr);
  auto t1 = std::chrono::steady_clock::now();
  printf("do_simulation %d: %.2f ms\n", r, std::chrono::duration<double,std::milli>(t1-t0).count());
  return r;
}
