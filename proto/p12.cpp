// probe: interact with finite target optical depth, non-uniform density, per cell estimators
#include "DensitySubGrid.hpp"
#include <cstdio>
#include <cmath>
#include <map>
#include <vector>
#include <string>
typedef long double LD;
int main(){
  const int n[3]={2,3,2};
  double box[6]={0.,0.,0.,(double)n[0],(double)n[1],(double)n[2]};
  long ncase=0,nbad=0; std::map<std::string,long> kinds;
  auto dens=[&](int ix,int iy,int iz){ int h=(ix+2*iy+3*iz)%3; return h==0?1.0:(h==1?3.0:0.0); };
  for (int hx=0;hx<=2*n[0];++hx) for(int hy=0;hy<=2*n[1];++hy) for(int hz=0;hz<=2*n[2];++hz)
  for (int a=-2;a<=2;++a) for(int b=-2;b<=2;++b) for(int c=-2;c<=2;++c) for(int tsel=0;tsel<4;++tsel){
    if(!a&&!b&&!c) continue;
    int h[3]={hx,hy,hz}, d[3]={a,b,c};
    int bf[3]; for(int i=0;i<3;++i){ bf[i]= h[i]==0?-1:(h[i]==2*n[i]?1:0); }
    int cls[3]; bool skip=false;
    for(int i=0;i<3;++i){ if(bf[i]==-1 && d[i]>0) cls[i]=-1; else if(bf[i]==1 && d[i]<0) cls[i]=1; else if (bf[i]==0) cls[i]=0; else { if (bf[i]==1) skip=true; else if (d[i]<0) skip=true; else cls[i]=0; } }
    if(skip) continue;
    DensitySubGrid grid(box, CoordinateVector<int_fast32_t>(n[0],n[1],n[2]));
    for(auto it=grid.begin(); it!=grid.end(); ++it){ CoordinateVector<> m=it.get_cell_midpoint(); it.get_ionization_variables().set_number_density(dens((int)m.x(),(int)m.y(),(int)m.z())); it.get_ionization_variables().set_ionic_fraction(ION_H_n,0.5); 
#ifdef HAS_HELIUM
      it.get_ionization_variables().set_ionic_fraction(ION_He_n,0.25);
#endif
    }
    CoordinateVector<int_fast32_t> ti(cls[0]<0?-1:(cls[0]>0?n[0]:0), cls[1]<0?-1:(cls[1]>0?n[1]:0), cls[2]<0?-1:(cls[2]>0?n[2]:0));
    int indir = grid.get_output_direction(ti);
    LD nrm=sqrtl((LD)(a*a+b*b+c*c));
    CoordinateVector<> dir((double)(a/nrm),(double)(b/nrm),(double)(c/nrm));
    // reference march: cells visited with path lengths
    LD pos[3]={0.5L*hx,0.5L*hy,0.5L*hz}; int ci[3];
    for(int i=0;i<3;++i){ if(cls[i]<0) ci[i]=0; else if(cls[i]>0) ci[i]=n[i]-1; else { ci[i]=(int)floorl(pos[i]); if (pos[i]==ci[i] && d[i]<0 && ci[i]>0) ci[i]-=1; /* on interior face moving negative: belongs to lower cell */ } }
    std::vector<std::pair<int,LD>> segs; LD sigH=1.0L, sigHe=0.5L; LD tautot=0;
    {
      LD p[3]={pos[0],pos[1],pos[2]}; int cc[3]={ci[0],ci[1],ci[2]};
      while(cc[0]>=0&&cc[0]<n[0]&&cc[1]>=0&&cc[1]<n[1]&&cc[2]>=0&&cc[2]<n[2]){
        LD t=1e300L; for(int i=0;i<3;++i){ if(d[i]>0) t=std::min(t,(cc[i]+1-p[i])/d[i]); else if(d[i]<0) t=std::min(t,(cc[i]-p[i])/d[i]); }
        LD len=t*nrm; int idx=(cc[0]*n[1]+cc[1])*n[2]+cc[2]; segs.push_back({idx,len});
        LD kappa=dens(cc[0],cc[1],cc[2])*(sigH*0.5L
#ifdef HAS_HELIUM
          +sigHe*0.25L
#endif
          ); tautot+=kappa*len;
        int nc[3]={cc[0],cc[1],cc[2]};
        for(int i=0;i<3;++i){ LD np=p[i]+t*d[i]; if(d[i]>0 && fabsl(np-(cc[i]+1))<1e-15L){ np=cc[i]+1; nc[i]=cc[i]+1;} else if(d[i]<0 && fabsl(np-cc[i])<1e-15L){ np=cc[i]; nc[i]=cc[i]-1;} p[i]=np; }
        for(int i=0;i<3;++i) cc[i]=nc[i];
      }
    }
    if (tautot==0 && tsel<3) continue;
    LD target = tsel==0? 0.3L*tautot : (tsel==1? 0.999L*tautot : (tsel==2? 1e-6L*tautot : 2*tautot+1));
    PhotonPacket ph; ph.set_position(CoordinateVector<>(0.5*hx,0.5*hy,0.5*hz)); ph.set_direction(dir);
    for(int ion=0;ion<NUMBER_OF_IONNAMES;++ion) ph.set_photoionization_cross_section(ion,0.); ph.set_photoionization_cross_section(ION_H_n,(double)sigH);
#ifdef HAS_HELIUM
    ph.set_photoionization_cross_section(ION_He_n,(double)sigHe);
#endif
    ph.set_weight(2.); ph.set_energy(4e15); ph.set_target_optical_depth((double)target);
    int out = grid.interact(ph, indir);
    ++ncase;
    // expected per cell path and end
    std::vector<LD> exp(n[0]*n[1]*n[2],0.L); LD tdone=0, total_len=0; bool absorbed=false;
    for(auto&s:segs){ LD kappa; { int idx=s.first; int iz=idx%n[2], iy=(idx/n[2])%n[1], ix=idx/(n[1]*n[2]); kappa=dens(ix,iy,iz)*(sigH*0.5L
#ifdef HAS_HELIUM
      +sigHe*0.25L
#endif
      ); }
      LD tau=kappa*s.second; if(tdone+tau>=target){ LD l=(target-tdone)/kappa; exp[s.first]+=l; total_len+=l; tdone=target; absorbed=true; break;} exp[s.first]+=s.second; total_len+=s.second; tdone+=tau; }
    bool bad=false;
    if (absorbed != (out==TRAVELDIRECTION_INSIDE)) { bad=true; kinds["absorbed-flag"]++; }
    int ci2=0; double maxd=0; for(auto it=grid.begin(); it!=grid.end(); ++it,++ci2){ double got=it.get_ionization_variables().get_mean_intensity(ION_H_n); double want=(double)(exp[ci2]*sigH*2.L); maxd=std::max(maxd,std::abs(got-want)); double hgot=it.get_ionization_variables().get_heating(HEATINGTERM_H); double hwant=want*(4e15-3.288e15); if(std::abs(hgot-hwant)>1e-10*(1+std::abs(hwant))) { bad=true; kinds["heating"]++; printf("   heating cell %d got %.17g want %.17g\n",ci2,hgot,hwant); break;} }
    if (maxd>1e-11) { bad=true; kinds["percell"]++; }
    LD rem=target-tdone; if (!absorbed && std::abs(ph.get_target_optical_depth()-(double)rem)>1e-11*(1+(double)target)) { bad=true; kinds["remaining-tau"]++; }
    CoordinateVector<> ep=ph.get_position(); LD e[3]={0.5L*hx+total_len*a/nrm,0.5L*hy+total_len*b/nrm,0.5L*hz+total_len*c/nrm};
    if (std::abs(ep.x()-(double)e[0])+std::abs(ep.y()-(double)e[1])+std::abs(ep.z()-(double)e[2])>1e-11) { bad=true; kinds["endpos"]++; }
    if(bad && nbad<8){ printf("BAD h=(%d,%d,%d) d=(%d,%d,%d) tsel=%d in=%d out=%d absorbed=%d maxd=%g remtau got %g want %Lg\n",hx,hy,hz,a,b,c,tsel,indir,out,(int)absorbed,maxd,ph.get_target_optical_depth(),rem);} 
    if(bad)++nbad;
  }
  printf("cases=%ld bad=%ld\n",ncase,nbad); for(auto&k:kinds) printf("  %s: %ld\n",k.first.c_str(),k.second);
}
