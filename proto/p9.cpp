#include "TimeLine.hpp"
#include <cstdio>
#include <cmath>
#include <map>
#include <set>
#include <vector>
#include <deque>
// access private state through restart bytes
struct Mem { std::vector<char> b; };
int main(){
  freopen("/dev/null","w",stderr);
  struct Cfg{double s,e,mn,mx;}; Cfg cfgs[]={{0,1,0,0},{0,1,1./64,0.25},{0,1,1./256,1},{0,3,0.01,0.7},{2,5,0.05,0}};
  for(auto&c:cfgs){
    // BFS over histories; state key = integer current time (read via -fno-access-control)
    std::vector<double> req={2*(c.e-c.s),(c.e-c.s),(c.e-c.s)/3,(c.e-c.s)/7,(c.e-c.s)/64, c.mn, c.mn*(1-1e-12), 0.99*c.mn, 1e-30, 1e300};
    std::set<uint64_t> seen; std::deque<std::vector<int>> fr; fr.push_back({}); seen.insert(0);
    long trans=0,bad=0; int shown=0; size_t maxdepth=0;
    while(!fr.empty()){
      auto h=fr.front(); fr.pop_front(); if(h.size()>40) continue; maxdepth=std::max(maxdepth,h.size());
      for(size_t r=0;r<req.size();++r){
        if(req[r]<=0) continue;
        TimeLine tl(c.s,c.e,c.mn,c.mx); double act=0,cur=c.s; bool next=true; double sum=0; bool ended=false;
        for(int k:h){ next=tl.advance(req[k],act,cur); sum+=act; }
        if(!h.empty() && !next) continue; // history already ended
        double prev=cur; uint64_t before=tl._current_time;
        bool n2=tl.advance(req[r],act,cur); ++trans;
        uint64_t after=tl._current_time;
        bool stopped = (after==before);
        bool ok=true; std::string why;
        if(!stopped){
          if(!(act<=req[r]*(1+1e-15))) {ok=false; why+="act>req ";}
          if(c.mx>0 && !(act<=c.mx*(1+1e-15))) {ok=false; why+="act>max ";}
          if(!(cur>prev)) {ok=false; why+="time not increasing ";}
          if(!(cur<=c.e*(1+1e-15))) {ok=false; why+="overshoot ";}
          uint64_t step=after-before; if(step&(step-1)) {ok=false; why+="step not pow2 ";}
          uint64_t left=0x8000000000000000ULL-before; if(step==0|| left%step) {ok=false; why+="step does not divide remaining ";}
          if(after>0x8000000000000000ULL) {ok=false; why+="integer overshoot ";}
          if(n2 != (after<0x8000000000000000ULL)) {ok=false; why+="has_next wrong ";}
          if(!n2 && std::abs(cur-c.e)>1e-15*std::abs(c.e)) {ok=false; why+="end not exact ";}
          if(!n2 && std::abs(sum+act-(c.e-c.s))>1e-12*(c.e-c.s)) {ok=false; why+="sum!=total ";}
        } else {
          if(n2) {ok=false; why+="no advance but has_next ";}
        }
        if(!ok){ ++bad; if(shown++<5) printf("BAD cfg(%g,%g,%g,%g) depth=%zu req=%g act=%g cur=%g: %s\n",c.s,c.e,c.mn,c.mx,h.size(),req[r],act,cur,why.c_str()); }
        if(!stopped && n2 && !seen.count(after)){ seen.insert(after); auto h2=h; h2.push_back(r); fr.push_back(h2); }
      }
    }
    printf("cfg(%g,%g,%g,%g): states=%zu transitions=%ld bad=%ld maxdepth=%zu\n",c.s,c.e,c.mn,c.mx,seen.size(),trans,bad,maxdepth);
  }
}
