// prototype explorer: preemption bounded DFS over schedules of the real
// TaskBasedIonizationSimulation::run()
#include "TaskBasedRadiationHydrodynamicsSimulation.hpp"
#include "CommandLineParser.hpp"
#include "Timer.hpp"
#include <chrono>
#include <cstdio>
#include <cstdlib>
#include <cstring>
#include <deque>
#include <map>
#include <poll.h>
#include <set>
#include <signal.h>
#include <string>
#include <sys/stat.h>
#include <sys/wait.h>
#include <unistd.h>
#include <vector>

namespace cmi_verif {
extern std::vector< int > g_prefix;
extern int g_report_fd;
extern bool g_log_events;
void write_report(int verdict);
} // namespace cmi_verif

struct Job {
  std::vector< int > prefix;
  pid_t pid;
  int fd;
  std::string data;
  std::chrono::steady_clock::time_point start;
};

static const char *g_param;
static int g_nthreads;

static void child_main(const std::vector< int > &prefix, int wfd) {
  cmi_verif::g_prefix = prefix;
  cmi_verif::g_report_fd = wfd;
  char dir[128];
  snprintf(dir, sizeof(dir), "/tmp/cmi_scratch/proto/run/%d", (int)getpid());
  mkdir(dir, 0777);
  std::string param = g_param;
  if (chdir(dir) != 0)
    _exit(98);
  // silence output
  freopen("/dev/null", "w", stdout);
  CommandLineParser parser("CMacIonize");
  parser.add_required_option< std::string >("params", 'p', "param file");
  parser.add_option("threads", 't', "threads", COMMANDLINEOPTION_INTARGUMENT, "1");
  parser.add_option("dry-run", 'n', "dry", COMMANDLINEOPTION_NOARGUMENT, "false");
  TaskBasedRadiationHydrodynamicsSimulation::add_command_line_parameters(parser);
  std::string nt = std::to_string(g_nthreads);
  const char *av[] = {"x", "--params", param.c_str(), "--threads", nt.c_str(), "--number-of-steps", "2"};
  parser.parse_arguments(7, (char **)av);
  Timer programtimer;
  freopen("/dev/null", "w", stderr);
  TaskBasedRadiationHydrodynamicsSimulation::do_simulation(parser, true, programtimer, nullptr);
  cmi_verif::write_report(0);
  // cleanup
  std::string cmd = std::string("rm -rf ") + dir;
  system(cmd.c_str());
  _exit(0);
}

int main(int argc, char **argv) {
  g_param = argv[1];
  g_nthreads = atoi(argv[2]);
  int bound = atoi(argv[3]);
  int J = argc > 4 ? atoi(argv[4]) : 16;
  mkdir("/tmp/cmi_scratch/proto/run", 0777);
  if (argc > 5) {
    // replay: "pos:choice,pos:choice"
    std::vector<int> prefix;
    char *str = argv[5];
    char *tok = strtok(str, ",");
    while (tok) { size_t p; int c; sscanf(tok, "%zu:%d", &p, &c); prefix.resize(p + 1, 0); prefix[p] = c; tok = strtok(nullptr, ","); }
    child_main(prefix, 1);
  }
  std::deque< std::vector< int > > work;
  work.push_back({});
  std::vector< Job > running;
  long nexec = 0, nviol = 0, maxpoints = 0, totalpoints = 0;
  std::map< std::string, long > outcomes;
  std::map< int, long > verdicts;
  auto t0 = std::chrono::steady_clock::now();
  while (!work.empty() || !running.empty()) {
    while (!work.empty() && (int)running.size() < J) {
      Job j;
      j.prefix = work.back();
      work.pop_back();
      int p[2];
      pipe(p);
      pid_t pid = fork();
      if (pid == 0) {
        close(p[0]);
        child_main(j.prefix, p[1]);
      }
      close(p[1]);
      j.pid = pid;
      j.fd = p[0];
      j.start = std::chrono::steady_clock::now();
      running.push_back(j);
    }
    std::vector< pollfd > pfds(running.size());
    for (size_t i = 0; i < running.size(); ++i) {
      pfds[i].fd = running[i].fd;
      pfds[i].events = POLLIN;
    }
    poll(pfds.data(), pfds.size(), 1000);
    for (size_t i = 0; i < running.size();) {
      bool done = false;
      if (pfds[i].revents & (POLLIN | POLLHUP)) {
        char buf[65536];
        ssize_t r = read(running[i].fd, buf, sizeof(buf));
        if (r > 0)
          running[i].data.append(buf, r);
        else
          done = true;
      }
      auto age = std::chrono::duration< double >(
                     std::chrono::steady_clock::now() - running[i].start)
                     .count();
      if (!done && age > 20.) {
        kill(running[i].pid, SIGKILL);
        running[i].data = "9 0 0\n";
        done = true;
      }
      if (done) {
        int status;
        waitpid(running[i].pid, &status, 0);
        close(running[i].fd);
        Job j = running[i];
        running.erase(running.begin() + i);
        pfds.erase(pfds.begin() + i);
        // parse
        ++nexec;
        int verdict = -1;
        size_t npoints = 0;
        long steps = 0;
        const char *s = j.data.c_str();
        int consumed = 0;
        if (sscanf(s, "%d %zu %ld\n%n", &verdict, &npoints, &steps,
                   &consumed) < 3) {
          verdict = 8; // crash without report
          npoints = 0;
        }
        if (!WIFEXITED(status) || WEXITSTATUS(status) != 0)
          verdict = verdict == 9 ? 9 : 8;
        s += consumed;
        std::vector< int > ncand(npoints), curfirst(npoints), choice(npoints);
        for (size_t k = 0; k < npoints; ++k) {
          int c2 = 0;
          sscanf(s, "%d %d %d\n%n", &ncand[k], &curfirst[k], &choice[k], &c2);
          s += c2;
        }
        std::string events = s;
        // oracle
        bool ok = verdict == 0;
        long it_done = -1, it_req = -1, lb = -1, lt = -1, lq = -1;
        std::string outcome;
        {
          // keep only iteration_end/leftover lines + task count
          long ntask = 0;
          const char *e = events.c_str();
          while (*e) {
            const char *nl = strchr(e, '\n');
            std::string line(e, nl ? nl - e : strlen(e));
            if (line.compare(0, 13, "iteration_end") == 0) {
              long il;
              sscanf(line.c_str(), "iteration_end %ld %ld %ld", &il, &it_done,
                     &it_req);
              if (it_done != it_req)
                ok = false;
              outcome += line + ";";
            } else if (line.compare(0, 8, "leftover") == 0) {
              sscanf(line.c_str(), "leftover %ld %ld %ld", &lb, &lt, &lq);
              if (lb != 0 || lt != 0 || lq != 0)
                ok = false;
              outcome += line + ";";
            } else if (line.compare(0, 14, "hydro_step_end") == 0) {
              outcome += line + ";";
            } else if (line.compare(0, 10, "task_start") == 0) {
              ++ntask;
            }
            if (!nl)
              break;
            e = nl + 1;
          }
          outcome += " ntask=" + std::to_string(ntask);
        }
        outcomes[outcome]++;
        verdicts[verdict]++;
        maxpoints = std::max< long >(maxpoints, npoints);
        totalpoints += npoints;
        if (!ok) {
          ++nviol;
          if (nviol <= 5) {
            printf("VIOLATION verdict=%d prefixlen=%zu outcome=%s\n  deviations:",
                   verdict, j.prefix.size(), outcome.c_str());
            for (size_t q = 0; q < j.prefix.size(); ++q)
              if (j.prefix[q]) printf(" %zu:%d", q, j.prefix[q]);
            printf("\n");
          }
        }
        // expand
        int used = 0;
        for (size_t k = 0; k < npoints; ++k) {
          if (k >= j.prefix.size()) {
            int cost = used + 1;
            if (cost <= bound) {
              for (int alt = 1; alt < ncand[k]; ++alt) {
                std::vector< int > np(choice.begin(), choice.begin() + k);
                np.push_back(alt);
                work.push_back(np);
              }
            }
          }
          if (choice[k] != 0)
            ++used;
        }
        if (nexec % 2000 == 0) {
          fprintf(stderr, "exec=%ld work=%zu viol=%ld\n", nexec, work.size(),
                  nviol);
        }
      } else {
        ++i;
      }
    }
  }
  double secs = std::chrono::duration< double >(
                    std::chrono::steady_clock::now() - t0)
                    .count();
  printf("bound=%d threads=%d executions=%ld violations=%ld maxpoints=%ld "
         "avgpoints=%.1f wall=%.1fs\n",
         bound, g_nthreads, nexec, nviol, maxpoints,
         nexec ? (double)totalpoints / nexec : 0., secs);
  for (auto &v : verdicts)
    printf("verdict %d: %ld\n", v.first, v.second);
  printf("distinct outcomes: %zu\n", outcomes.size());
  int shown = 0;
  for (auto &o : outcomes) {
    if (shown++ < 8)
      printf("  %ld x %s\n", o.second, o.first.c_str());
  }
  return nviol ? 1 : 0;
}
