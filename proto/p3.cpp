#include "NewVoronoiGrid.hpp"
#include "OldVoronoiGrid.hpp"
#include <cstdio>
#include <vector>
#include <csetjmp>
#include <csignal>
static sigjmp_buf jb;
static void on_abort(int){ siglongjmp(jb,1); }
int main(){
  signal(SIGABRT,on_abort); signal(SIGSEGV,on_abort); signal(SIGFPE,on_abort);
  Box<> box(CoordinateVector<>(0.), CoordinateVector<>(1.));
  std::vector<CoordinateVector<>> lat;
  for(int i=0;i<3;++i)for(int j=0;j<3;++j)for(int k=0;k<3;++k) lat.push_back(CoordinateVector<>(0.25+0.25*i,0.25+0.25*j,0.25+0.25*k));
  long nsets=0, newfail=0, oldfail=0, newbadvol=0, oldbadvol=0, newabort=0, oldabort=0;
  freopen("/dev/null","w",stderr);
  for (int k=2;k<=4;++k){
    std::vector<int> idx(k); for(int i=0;i<k;++i) idx[i]=i;
    while(true){
      std::vector<CoordinateVector<>> pos; for(int i:idx) pos.push_back(lat[i]);
      ++nsets;
      for (int which=0; which<2; ++which){
        if (sigsetjmp(jb,1)==0){
          VoronoiGrid *g = which==0 ? (VoronoiGrid*)new NewVoronoiGrid(pos,box) : (VoronoiGrid*)new OldVoronoiGrid(pos,box);
          g->compute_grid(1);
          double v=0; for(int i=0;i<k;++i) v+=g->get_volume(i);
          if (std::abs(v-1.)>1e-10) { if(which==0) ++newbadvol; else ++oldbadvol; }
          delete g;
        } else { if(which==0) ++newabort; else ++oldabort; signal(SIGABRT,on_abort); signal(SIGSEGV,on_abort);}
      }
      // next combination
      int i=k-1; while(i>=0 && idx[i]==27-k+i) --i; if(i<0) break; ++idx[i]; for(int j=i+1;j<k;++j) idx[j]=idx[j-1]+1;
      if (nsets>=3000) break;
    }
  }
  printf("sets=%ld new: badvol=%ld abort=%ld ; old: badvol=%ld abort=%ld\n", nsets,newbadvol,newabort,oldbadvol,oldabort);
}
